#!/usr/bin/env python3
"""Developer tool (never run by a check): after triage has established that a group of
violations is ONE genuine defect of tsrun that is not repaired, record their exact
signatures.  usage: lib/ledger_add.py <ID> <group> "<what fails>" [--tier T]... <sig-prefix>..."""
import json, subprocess, sys, os
VERIF = os.path.dirname(os.path.dirname(os.path.abspath(__file__)))
args = sys.argv[1:]
tiers = []
while "--tier" in args:
    i = args.index("--tier"); tiers.append(args[i+1]); del args[i:i+2]
tiers = tiers or ["quick"]
seeds = [0]
if "--seeds" in args:
    i = args.index("--seeds"); seeds = [int(x) for x in args[i+1].split(",")]; del args[i:i+2]
cid, group, what = args[0], args[1], args[2]
prefixes = args[3:]
binary = os.path.join(VERIF, "target/dev/debug/tsverif")
sigs = set()
for tier in tiers:
  for seed in seeds:
    procs = [subprocess.Popen([binary, cid, "run", "--tier", tier, "--seed", str(seed), "--offset", str(k), "--stride", "16"],
                              stdout=subprocess.PIPE, stderr=subprocess.DEVNULL, text=True) for k in range(16)]
    for p in procs:
        for line in p.stdout:
            if line.startswith("R "):
                for v in json.loads(line[2:])["violations"]:
                    if any(v["sig"].startswith(px) for px in prefixes):
                        sigs.add(v["sig"])
path = "findings/%s.%s.sigs" % (cid, group)
os.makedirs(os.path.join(VERIF, "findings"), exist_ok=True)
old = set()
if os.path.exists(os.path.join(VERIF, path)):
    old = set(l.rstrip("\n") for l in open(os.path.join(VERIF, path)) if l.strip())
allsigs = sorted(old | sigs)
with open(os.path.join(VERIF, path), "w") as f:
    for s in allsigs:
        f.write(s + "\n")
line = "known: property=%s %s ## %s" % (cid, what, json.dumps({"group": "%s-%s" % (cid, group), "sigs_file": path}))
led = os.path.join(VERIF, "known_findings.txt")
cur = open(led).read()
if ('"group": "%s-%s"' % (cid, group)) not in cur:
    open(led, "a").write(line + "\n")
print("%s: %d signatures (%d new) in %s" % (group, len(allsigs), len(sigs - old), path))
