#!/bin/bash
# Developer tool: run checks against seeded breaks in a private lab copy of /repo and /verif
# (so that /repo itself is never patched and concurrent work is not disturbed).
# usage: lib/seed_matrix.sh [--tier T] <seed-dir>:<ID>[,<ID>...] ...     e.g.  C07-1:C07,C02
# Results: one line per (seed, check) on stdout; details under $LAB/log/.
set -u
LAB=${LAB:-/tmp/seedlab}
tier=quick
if [ "${1:-}" = "--tier" ]; then tier=$2; shift 2; fi
mkdir -p $LAB/log
rsync -a --delete --exclude target --exclude replays --exclude .git /verif/ $LAB/verif/
rsync -a --delete --exclude target /repo/ $LAB/repo/
sed -i "s#path = \"/repo\"#path = \"$LAB/repo\"#" $LAB/verif/harness/Cargo.toml
( cd $LAB/repo && git reset -q --hard 2>/dev/null )
for spec in "$@"; do
  seed=${spec%%:*}; ids=${spec#*:}
  cd $LAB/repo
  if ! git apply /verif/seeded/$seed/patch.diff 2>$LAB/log/$seed.apply && ! git apply --3way /verif/seeded/$seed/patch.diff 2>>$LAB/log/$seed.apply; then
    echo "$seed: PATCH DOES NOT APPLY"; git reset -q --hard; continue
  fi
  for id in ${ids//,/ }; do
    cd $LAB/verif
    VERIF_JOBS=${VERIF_JOBS:-8} ./check $id --tier $tier > $LAB/log/$seed.$id.out 2> $LAB/log/$seed.$id.err
    rc=$?
    nv=$(grep -c "^VIOLATION" $LAB/log/$seed.$id.out)
    first=$(grep -A1 "^VIOLATION" $LAB/log/$seed.$id.out | head -1 | cut -c1-80)
    what=$(grep -m1 "^   " $LAB/log/$seed.$id.err | cut -c1-220)
    echo "$seed $id($tier): exit=$rc violations=$nv :: $what"
  done
  cd $LAB/repo && git reset -q --hard && git clean -fdq
done
