#!/bin/bash
# Developer tool: confirm a seeded break delivered by a sub-agent in /tmp/seed-out/<ID>/ inside its
# scratch worktree /tmp/wt-<ID> (patch applied there): suite passes, demo fails with / passes without.
# usage: lib/confirm_seed.sh <ID> <seed-name>     e.g. C01 C01-1
set -u
id=$1; name=$2
wt=/tmp/wt-$id; out=/tmp/seed-out/$id
cd $wt || exit 2
export CARGO_NET_OFFLINE=true
git checkout -q -- . ; rm -f tests/seeded_demo.rs
git apply $out/patch.diff || { echo "patch does not apply"; exit 2; }
feat=""
grep -q "c-api\|tsrun_verif" $out/demo.rs && feat="--features tsrun_verif,c-api"
suite=$(cargo test --workspace --no-fail-fast --offline -j 8 2>&1 | grep -E "^test result" | awk '{p+=$4; f+=$6} END {print p" passed "f" failed"}')
echo "suite with patch: $suite"
cargo build --offline --features tsrun_verif,c-api -j 8 2>&1 | tail -1
cp $out/demo.rs tests/seeded_demo.rs
with=$(cargo test --offline -j 8 $feat --test seeded_demo 2>&1 | grep -E "^test result" | head -1)
echo "demo with patch: $with"
git apply -R $out/patch.diff
without=$(cargo test --offline -j 8 $feat --test seeded_demo 2>&1 | grep -E "^test result" | head -1)
echo "demo without patch: $without"
rm -f tests/seeded_demo.rs
mkdir -p /verif/seeded/$name
cp $out/patch.diff $out/demo.rs $out/meta.json /verif/seeded/$name/
python3 - <<PY
import json
p='/verif/seeded/$name/meta.json'
d=json.load(open(p))
d['confirmed']={'suite_with_patch':'$suite','demo_with_patch':'$with','demo_without_patch':'$without','how':'lib/confirm_seed.sh in a scratch worktree of /repo (removed afterwards)'}
json.dump(d,open(p,'w'),indent=1)
PY
