#!/usr/bin/env python3
"""Summarise violations of one check by signature prefix (developer tool for triage).
usage: lib/triage.py <ID> [--tier T] [--full]"""
import json, subprocess, sys, os, collections
VERIF = os.path.dirname(os.path.dirname(os.path.abspath(__file__)))
cid = sys.argv[1]
tier = "quick"
if "--tier" in sys.argv: tier = sys.argv[sys.argv.index("--tier")+1]
full = "--full" in sys.argv
binary = os.path.join(VERIF, "target/dev/debug/tsverif")
n = int(subprocess.check_output([binary, cid, "units", "--tier", tier]).decode().strip())
procs = []
J = 16
for k in range(J):
    procs.append(subprocess.Popen([binary, cid, "run", "--tier", tier, "--offset", str(k), "--stride", str(J)], stdout=subprocess.PIPE, stderr=subprocess.DEVNULL, text=True))
groups = collections.defaultdict(list)
tot = 0
for p in procs:
    for line in p.stdout:
        if line.startswith("R "):
            r = json.loads(line[2:])
            for v in r["violations"]:
                parts = v["sig"].split("|")
                key = "|".join(parts[:2]) if not full else v["sig"]
                groups[key].append(v)
                tot += 1
print("total violations", tot)
for k, vs in sorted(groups.items(), key=lambda kv: -len(kv[1])):
    print("%6d  %s" % (len(vs), k))
    for v in vs[:3]:
        print("          ", v["what"][:260])
