#!/usr/bin/env python3
"""Developer tool (never run by a check): record the deviating cells of an enumerated,
golden-backed matrix as known findings, ONE GROUP PER ATOM FAMILY, each with the exact cell
signatures (cell id + hash of the observed wrong output) and a generated description with a
concrete example. Used after triage established that the deviations are genuine
non-conformances of tsrun (the reference engine is the oracle the property names).
usage: lib/ledger_families.py <ID> <sig-kind-prefix> [--tier T] [--seeds 0,1,..]"""
import json, subprocess, sys, os, collections, re
VERIF = os.path.dirname(os.path.dirname(os.path.abspath(__file__)))
args = sys.argv[1:]
tier = "quick"
if "--tier" in args:
    i = args.index("--tier"); tier = args[i+1]; del args[i:i+2]
seeds = [0]
if "--seeds" in args:
    i = args.index("--seeds"); seeds = [int(x) for x in args[i+1].split(",")]; del args[i:i+2]
cid, kind = args[0], args[1]
binary = os.path.join(VERIF, "target/dev/debug/tsverif")
fam = collections.defaultdict(dict)
for seed in seeds:
    procs = [subprocess.Popen([binary, cid, "run", "--tier", tier, "--seed", str(seed), "--offset", str(k), "--stride", "16"],
                              stdout=subprocess.PIPE, stderr=subprocess.DEVNULL, text=True) for k in range(16)]
    for p in procs:
        for line in p.stdout:
            if line.startswith("R "):
                for v in json.loads(line[2:])["violations"]:
                    parts = v["sig"].split("|")
                    if parts[0] != kind:
                        continue
                    cell = parts[1]
                    f = cell.split("#")[0]
                    if cell.startswith("B/"):
                        f = "composed-shard-" + cell.split("/")[1]
                    fam[f][v["sig"]] = v["what"]
led = os.path.join(VERIF, "known_findings.txt")
cur = open(led).read()
lines = []
os.makedirs(os.path.join(VERIF, "findings"), exist_ok=True)
for f in sorted(fam):
    safe = re.sub(r"[^A-Za-z0-9_.-]", "_", f)
    path = "findings/%s.%s.sigs" % (cid, safe)
    old = set()
    full = os.path.join(VERIF, path)
    if os.path.exists(full):
        old = set(l.rstrip("\n") for l in open(full) if l.strip())
    sigs = sorted(old | set(fam[f]))
    with open(full, "w") as fh:
        for s in sigs:
            fh.write(s + "\n")
    example = sorted(fam[f].values(), key=len)[0]
    example = example.split(" :: ", 1)[-1].replace("\n", " ")
    if len(example) > 300:
        example = example[:300] + "..."
    group = "%s-%s" % (cid, safe)
    if ('"group": "%s"' % group) not in cur:
        what = "%s: %d case(s) of family '%s' deviate from the reference engine, e.g. %s" % (kind, len(sigs), f, example)
        lines.append("known: property=%s %s ## %s" % (cid, what.replace(" ## ", " # "), json.dumps({"group": group, "sigs_file": path})))
with open(led, "a") as fh:
    for l in lines:
        fh.write(l + "\n")
print("%d families, %d signatures, %d new ledger lines" % (len(fam), sum(len(v) for v in fam.values()), len(lines)))
