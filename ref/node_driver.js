// Reference-engine batch driver: reads JSONL {id, src} on stdin, evaluates each program in
// a fresh node:vm context (strict mode is requested by the programs themselves), prints
// JSONL {id, ok, out}. Used only by `./check <ID> --regold` at build time.
const vm = require('vm');
const readline = require('readline');
const rl = readline.createInterface({ input: process.stdin, terminal: false, crlfDelay: Infinity });
rl.on('line', (line) => {
  if (!line.trim()) return;
  const job = JSON.parse(line);
  let res;
  try {
    const out = vm.runInNewContext(job.src, {}, { timeout: 5000 });
    res = { id: job.id, ok: true, out: typeof out === 'string' ? out : String(out) };
  } catch (e) {
    res = { id: job.id, ok: false, out: '!' + (e && e.name ? e.name : 'throw') + ': ' + (e && e.message ? String(e.message).slice(0, 200) : '') };
  }
  process.stdout.write(JSON.stringify(res) + '\n');
});
